(* K3 / K4 correspondence for C02: for a generated case (configuration, history of programs,
   whitespace seeds) Coq computes, per program, the reference byte-code (`compile`), the source text
   under every seed (`print`) and the expected observable (`denote_history`), rendered as ONE plain
   string per case that lib/c02.py parses; Go then runs exactly the printed texts.

   line   := (pack (outcomes "|" codes), texts)      pack = the bytes in chunks of 7, each chunk one base-256 number after a leading 1
   outcomes := outcome (";" outcome)*          one per program of the history (stops after fuel / unsup)
   outcome  := "V:" dv ":" env | "E:" class ":" env | "F" | "U:" hex(why)
   dv       := "i" int | "s" hex | "n" | "a(" dv* ")"           (array items each followed by ",")
   env      := (hex(name) "=" dv ",")*
   codes    := code ("/" code)*                one per program
   code     := (opname "#" operand ",")*       operand: int | "x" hex(string) | ""  (spans omitted)
   texts    := list (per seed) of list (per program) of (flag, pack text); flag = contains the `(..) !=` shape *)
From Coq Require Import String Ascii NArith ZArith List Bool.
From DS Require Import Model.Str Model.Value Model.VM Model.Ast Model.Denote Model.Compile.
Import ListNotations.
Open Scope string_scope.

Definition hexd (n : N) : ascii :=
  ascii_of_N (if (n <? 10)%N then 48 + n else 87 + n).
Fixpoint hex (s : string) : string :=
  match s with
  | EmptyString => EmptyString
  | String c r => let n := N_of_ascii c in String (hexd (n / 16)) (String (hexd (n mod 16)) (hex r))
  end.

Fixpoint show_dv (v : dv) : string :=
  match v with
  | DvInt z => "i" ++ show_Z z
  | DvStr s => "s" ++ hex s
  | DvNull => "n"
  | DvArr l => "a(" ++ (fix go (l : list dv) : string :=
                          match l with [] => "" | x :: r => show_dv x ++ "," ++ go r end) l ++ ")"
  end.
Fixpoint show_env (m : denv) : string :=
  match m with [] => "" | (k, v) :: r => hex k ++ "=" ++ show_dv v ++ "," ++ show_env r end.

Definition show_outcome (o : doutcome) : string :=
  match o with
  | DVal v env => "V:" ++ show_dv v ++ ":" ++ show_env env
  | DErr c env => "E:" ++ show_N (eclass_num c) ++ ":" ++ show_env env
  | DOutOfFuel => "F"
  | DUnsup w => "U:" ++ hex w
  end.

Definition op_name (o : opcode) : string :=
  match o with
  | OpPushInt => "push.int" | OpPushStr => "push.str" | OpPushNull => "push.null" | OpPushArr => "push.arr"
  | OpPushLast => "push.last" | OpLdD => "ld.d" | OpStore => "store" | OpItemGet => "item.get"
  | OpAdd => "add" | OpSub => "sub" | OpMul => "mul" | OpDiv => "div" | OpMod => "mod" | OpPow => "pow"
  | OpNullCoalescing => "nullCoalescing"
  | OpLt => "comp.lt" | OpLe => "comp.le" | OpEq => "comp.eq" | OpNe => "comp.ne" | OpGe => "comp.ge" | OpGt => "comp.gt"
  | OpBitAnd => "bitand" | OpBitOr => "bitor" | OpAnd => "and" | OpNeg => "neg" | OpPos => "pos"
  | OpDiceInit => "dice.init" | OpDiceSetTimes => "dice.setTimes" | OpDice => "dice"
  | OpHalt => "halt" | OpMarkDetail => "mark.detail"
  | OpJmp => "jmp" | OpJne => "jne" | OpJeDup => "je.dup"
  | OpBlockPush => "block.push" | OpBlockPop => "block.pop"
  | _ => "?"
  end.
Definition show_operand (o : operand) : string :=
  match o with
  | OInt z => show_Z z
  | OStr s => "x" ++ hex s
  | _ => ""
  end.
Fixpoint show_code (c : code) : string :=
  match c with
  | [] => ""
  | I op arg :: r => op_name op ++ "#" ++ show_operand arg ++ "," ++ show_code r
  end.

Record c02_case := {
  k_cfg : config;
  k_fuel : nat;
  k_seeds : list N;
  k_progs : list stmt;
  k_env : denv          (* always [] from Python: a fresh VM *)
}.

(* a byte string as a list of numbers: each number is a leading 1 followed by up to 7 bytes in base 256
   (small numbers are cheap to read back and to print) *)
Fixpoint pack_go (s : string) (acc : N) (k : nat) : list N :=
  match s with
  | EmptyString => if (acc =? 1)%N then [] else [acc]
  | String c r =>
    let acc' := (acc * 256 + N_of_ascii c)%N in
    match k with
    | O => acc' :: pack_go r 1%N 6
    | S k' => pack_go r acc' k'
    end
  end.
Definition pack (s : string) : list N := pack_go s 1%N 6.

Fixpoint texts_of (seed : N) (i : N) (ps : list stmt) : list (bool * list N) :=
  match ps with
  | [] => []
  | p :: r =>
    let ws := mk_ws (seed + 7919 * i) in
    let toks := tokens ws p in
    (paren_ne_scan None toks, pack (blanks GAny (N.shiftr (ws 0%nat) 3) ++ render ws toks 1)) :: texts_of seed (i + 1) r
  end.

(* (outcomes "|" codes) packed, texts per seed and program *)
Definition c02_line (c : c02_case) : list N * list (list (bool * list N)) :=
  (pack (join ";" (map show_outcome (denote_history (k_fuel c) (k_cfg c) (k_progs c) (k_env c)))
         ++ "|" ++ join "/" (map (fun p => show_code (compile p)) (k_progs c))),
   map (fun s => texts_of s 0 (k_progs c)) (k_seeds c)).

Definition CFG2 (div0 mn mx : bool) : config :=
  {| cfg_ignore_div0 := div0; cfg_min_mode := mn; cfg_max_mode := mx; cfg_op_limit := 0;
     cfg_def_expr_empty := true; cfg_st_callback := false |}.
Definition K (cfg : config) (fuel : nat) (seeds : list N) (progs : list stmt) : c02_case :=
  {| k_cfg := cfg; k_fuel := fuel; k_seeds := seeds; k_progs := progs; k_env := [] |}.
