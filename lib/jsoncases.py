"""Shared helpers of the C09 / C10 checks: Coq term builders for Model/Json.v, JSON tree
rendering and mutation, harness runners, compilation of the Json Coq files."""
import json
import os
import random
import struct

import common
from common import Broken

COQ_FILES = ["Model/Json.v", "Proofs/JsonProofs.v", "Corr/Corr09.v"]

HEADER = ("From Coq Require Import String Ascii NArith ZArith List.\n"
          "From DS Require Import Model.Str Model.Json Corr.Corr09.\n"
          "Import ListNotations.\nOpen Scope string_scope.\n"
          "Set Printing Width 1000000. Set Printing Depth 10000000.\n")

NATIVE_CANDIDATES = ["ceil", "floor", "round", "abs", "toInt", "toFloat", "toStr", "toBool", "repr", "load", "loadRaw",
                     "store", "dir", "typeId", "nosuch", "", "Ceil", "Array.sum", "Array.kh", "Dict.keys", "Computed.compute",
                     "help", "roll", "hostfn", "len", "sum", "str", "int", "float", "bool"]


# ------------------------------------------------------------------ Coq build of the owned files
COQ_DEPS = {"Model/Json.v": [], "Proofs/JsonProofs.v": ["Model/Json.v"], "Corr/Corr09.v": ["Model/Json.v", "Model/Str.v"]}


def ensure_coq():
    """Compile Model/Json.v, Proofs/JsonProofs.v, Corr/Corr09.v when their .vo is missing or older than
    their source or a .vo they depend on (they may not be listed in _CoqProject yet; once they are,
    coq_make has already built them and this is a no-op)."""
    common.coq_make()
    with common.Lock("coqmake"):
        for f in COQ_FILES:
            src = os.path.join(common.COQ, f)
            vo = src[:-2] + ".vo"
            need = not os.path.exists(vo) or os.path.getmtime(vo) < os.path.getmtime(src)
            for dep in COQ_DEPS[f]:
                dvo = os.path.join(common.COQ, dep[:-2] + ".vo")
                if not need and os.path.exists(dvo) and os.path.getmtime(vo) < os.path.getmtime(dvo):
                    need = True
            if not need:
                continue
            r = common.sh(["timeout", "900", "coqc", "-q", "-Q", ".", "DS", f], cwd=common.COQ)
            common.log(f"[coq] coqc {f} rc={r.returncode}")
            if r.returncode != 0:
                raise Broken("coq-build " + f, r.stdout[-4000:])


# ------------------------------------------------------------------ Coq terms
def Zt(x):
    return f"({int(x)})%Z"


def Nt(x):
    return f"({int(x)})%N"


def cstr(b):
    """Coq string term for a byte string."""
    if isinstance(b, str):
        b = b.encode("utf-8")
    if all(32 <= c <= 126 and c != 34 for c in b):
        return '"' + b.decode("ascii") + '"'
    return "(s_of [" + ";".join(f"{c}%N" for c in b) + "])"


def clist(items):
    return "[" + "; ".join(items) + "]"


def copt(x):
    return "None" if x is None else f"(Some {x})"


# canonical JSON trees: ["null"] ["bool",b] ["int",z] ["flt",bits] ["str",bytes] ["arr",[..]] ["obj",[[kbytes,tree],..]]
def tree_of_go(t):
    k = t["k"]
    if k == "null":
        return ["null"]
    if k == "bool":
        return ["bool", bool(t.get("b", False))]
    if k == "int":
        return ["int", int(t["z"])]
    if k == "flt":
        return ["flt", int(t["f"])]
    if k == "str":
        return ["str", bytes.fromhex(t.get("s", ""))]
    if k == "arr":
        return ["arr", [tree_of_go(x) for x in t.get("l") or []]]
    if k == "obj":
        return ["obj", [[bytes.fromhex(e[0]), tree_of_go(e[1])] for e in t.get("e") or []]]
    raise ValueError(k)


def fbits(x):
    return struct.unpack(">Q", struct.pack(">d", x))[0]


def tree_of_text(text):
    """Parse JSON text keeping duplicate keys, key order and the int/float literal distinction."""
    raw = json.loads(text, object_pairs_hook=lambda ps: ("obj", ps), parse_int=lambda s: ("int", int(s)),
                     parse_float=lambda s: ("flt", fbits(float(s))))

    def walk(x):
        if x is None:
            return ["null"]
        if isinstance(x, bool):
            return ["bool", x]
        if isinstance(x, str):
            return ["str", x.encode("utf-8")]
        if isinstance(x, tuple):
            if x[0] == "obj":
                return ["obj", [[k.encode("utf-8"), walk(v)] for k, v in x[1]]]
            return [x[0], x[1]]
        if isinstance(x, list):
            return ["arr", [walk(e) for e in x]]
        raise ValueError(repr(x))

    return walk(raw)


def render(t):
    """JSON text of a tree.  Floats are always written with '.' or an exponent (never integer syntax)."""
    k = t[0]
    if k == "null":
        return "null"
    if k == "bool":
        return "true" if t[1] else "false"
    if k == "int":
        return str(t[1])
    if k == "flt":
        x = struct.unpack(">d", struct.pack(">Q", t[1]))[0]
        s = repr(x)
        if "inf" in s or "nan" in s:
            raise ValueError("non-finite float in a document")
        if "." not in s and "e" not in s:
            s += ".0"
        return s
    if k == "str":
        return json.dumps(t[1].decode("utf-8"))
    if k == "arr":
        return "[" + ",".join(render(x) for x in t[1]) + "]"
    if k == "obj":
        return "{" + ",".join(json.dumps(kk.decode("utf-8")) + ":" + render(v) for kk, v in t[1]) + "}"
    raise ValueError(k)


def json_term(t):
    k = t[0]
    if k == "null":
        return "JNull"
    if k == "bool":
        return "(JBool true)" if t[1] else "(JBool false)"
    if k == "int":
        return f"(JInt {Zt(t[1])})"
    if k == "flt":
        return f"(JFloat {Nt(t[1])})"
    if k == "str":
        return f"(JStr {cstr(t[1])})"
    if k == "arr":
        return "(JArr " + clist([json_term(x) for x in t[1]]) + ")"
    if k == "obj":
        return "(JObj " + clist([f"({cstr(kk)}, {json_term(v)})" for kk, v in t[1]]) + ")"
    raise ValueError(k)


def hexs(d, key):
    return bytes.fromhex(d.get(key) or "")


def value_term(d):
    """`value` term from a harness dump (tree unfolding; cycles are not representable)."""
    t = d["t"]
    if d.get("cyc") or d.get("bad") or t == -1:
        raise ValueError("not a tree")
    if t == 0:
        return f"(VInt {Zt(d['i'])})"
    if t == 1:
        return f"(VFloat {Nt(d['f'])})"
    if t == 2:
        return f"(VStr {cstr(hexs(d, 's'))})"
    if t == 4:
        return "VNull"
    if t == 6:
        return "(VArr " + clist([value_term(x) for x in d.get("l") or []]) + ")"
    if t == 7:
        return "(VDict " + entries_term(d, value_term) + ")"
    if t == 8:
        ps = copt(clist([cstr(bytes.fromhex(p)) for p in d.get("p") or []])) if d.get("hasm") else "None"
        return f"(VFunc {cstr(hexs(d, 'n'))} {ps} {cstr(hexs(d, 's'))})"
    if t == 5:
        at = copt(entries_term(d, value_term)) if d.get("hasm") else "None"
        return f"(VComputed {cstr(hexs(d, 's'))} {at})"
    if t == 9:
        return f"(VNative {cstr(hexs(d, 's'))})"
    if t == 10:
        return f"(VNObj {cstr(hexs(d, 's'))})"
    raise ValueError("tag %r" % t)


def entries_term(d, f):
    ks = d.get("k") or []
    ls = d.get("l") or []
    return clist([f"({cstr(bytes.fromhex(k))}, {f(x)})" for k, x in zip(ks, ls)])


def rvalue_term(d):
    """`rvalue` term from a nil-aware harness dump of a decoded value."""
    t = d["t"]
    if t == -1:
        return "RNil"
    if d.get("bad") or d.get("cyc"):
        return f"(RNone {Zt(-999)})"  # cannot agree with anything the model produces
    if t == 0 and not d.get("nilp"):
        return f"(RInt {Zt(t)} {Zt(d['i'])})"
    if t == 1 and not d.get("nilp"):
        return f"(RFloat {Zt(t)} {Nt(d['f'])})"
    if t == 2 and not d.get("nilp"):
        return f"(RStr {Zt(t)} {cstr(hexs(d, 's'))})"
    if t == 6 and not d.get("nilp"):
        return f"(RArr {Zt(t)} " + clist([rvalue_term(x) for x in d.get("l") or []]) + ")"
    if t == 7 and not d.get("nilp"):
        return f"(RDict {Zt(t)} " + entries_term(d, rvalue_term) + ")"
    if t == 8 and not d.get("nilp"):
        ps = copt(clist([cstr(bytes.fromhex(p)) for p in d.get("p") or []])) if d.get("hasm") else "None"
        return f"(RFunc {Zt(t)} {cstr(hexs(d, 'n'))} {ps} {cstr(hexs(d, 's'))})"
    if t == 5 and not d.get("nilp"):
        at = copt(entries_term(d, rvalue_term)) if d.get("hasm") else "None"
        return f"(RComputed {Zt(t)} {cstr(hexs(d, 's'))} {at})"
    if t == 9 and not d.get("nilp"):
        return f"(RNative {Zt(t)} {cstr(hexs(d, 's'))})"
    if t == 10 and not d.get("nilp"):
        return f"(RNObj {Zt(t)} {cstr(hexs(d, 's'))})"
    if d.get("nilp"):
        return f"(RNone {Zt(t)})"
    return f"(RNone {Zt(-998)})"  # a payload under a tag that has none (e.g. stale payload under null)


def heap_term(hp):
    ws = []
    for w in hp["w"]:
        k = w["k"]
        if k == "int":
            ws.append(f"(WInt {Zt(w['i'])})")
        elif k == "flt":
            ws.append(f"(WFloat {Nt(w['f'])})")
        elif k == "str":
            ws.append(f"(WStr {cstr(bytes.fromhex(w['s']))})")
        elif k == "null":
            ws.append("WNull")
        elif k == "arr":
            ws.append(f"(WArr {w['p']})")
        elif k == "dict":
            ws.append(f"(WDict {w['p']})")
        elif k == "comp":
            ws.append(f"(WComputed {cstr(bytes.fromhex(w['s']))} {copt(w['p']) if w.get('hasp') else 'None'})")
        elif k == "func":
            ps = copt(clist([cstr(bytes.fromhex(p)) for p in w.get("ps") or []])) if w.get("hasps") else "None"
            ws.append(f"(WFunc {cstr(bytes.fromhex(w['n']))} {ps} {cstr(bytes.fromhex(w['s']))})")
        elif k == "native":
            ws.append(f"(WNative {cstr(bytes.fromhex(w['s']))})")
        elif k == "nobj":
            ws.append(f"(WNObj {cstr(bytes.fromhex(w['s']))})")
        else:
            raise ValueError(k)
    ps = []
    for p in hp["p"]:
        if p["k"] == "list":
            ps.append("(PList " + clist([str(x) for x in p.get("l") or []]) + ")")
        else:
            ps.append("(PMap " + clist([f"({cstr(bytes.fromhex(k))}, {x})" for k, x in zip(p.get("ks") or [], p.get("l") or [])]) + ")")
    return "{| wrappers := " + clist(ws) + "; payloads := " + clist(ps) + " |}"


def case_file(typ, okf, items):
    return (HEADER + f"Definition cases : list {typ} := [\n" + ";\n".join(items) + "].\n"
            f"Definition bad := Eval vm_compute in bad_idx {okf} 0%N cases.\nPrint bad.\n")


def run_cases(name, typ, okf, items, shard=400):
    """Evaluate the checker over all items inside Coq; returns the indices that disagree."""
    if not items:
        return []
    ks = list(range(0, len(items), shard))
    outs = common.coq_eval_many([(f"{name}_{k}", case_file(typ, okf, items[k:k + shard])) for k in ks])
    bad = []
    for k, out in zip(ks, outs):
        bad += [k + int(x.replace("%N", "")) for x in common.parse_coq_list(out, "bad")]
    return bad


# ------------------------------------------------------------------ dump predicates
def valid_utf8(b):
    try:
        b.decode("utf-8")
        return True
    except UnicodeDecodeError:
        return False


def walk_dump(d):
    yield d
    for x in d.get("l") or []:
        yield from walk_dump(x)


def dump_strings_ok(d):
    for x in walk_dump(d):
        for key in ("s", "n"):
            if not valid_utf8(hexs(x, key)):
                return False
        for k in (x.get("k") or []) + (x.get("p") or []):
            if not valid_utf8(bytes.fromhex(k)):
                return False
    return True


def dump_has_cycle(d):
    return any(x.get("cyc") for x in walk_dump(d))


def dump_nonfinite(d):
    for x in walk_dump(d):
        if x["t"] == 1 and x.get("f"):
            if (int(x["f"]) >> 52) & 0x7FF == 0x7FF:
                return True
    return False


KNOWN_NATIVES = set(NATIVE_CANDIDATES[:14])


def dump_outside_universe(d):
    """values C09 does not quantify over: host native functions / bound methods / native objects"""
    for x in walk_dump(d):
        if x["t"] == 10:
            return "native object"
        if x["t"] == 9 and (x.get("self") or hexs(x, "s").decode("utf-8", "replace") not in KNOWN_NATIVES):
            return "native function that is not a plain builtin (bound method / host function)"
        if x["t"] == 8 and (x.get("self") or x.get("ndef")):
            return "function with Self/Defaults"
    return None


# ------------------------------------------------------------------ document mutation
def fold(k):
    s = k.decode("utf-8", "replace")
    return s.lower().replace("\u017f", "s").replace("\u212a", "k")


STRUCT_FIELDS = {"v", "list", "params"}


def model_exact(t):
    """False when some object repeats a struct-/slice-valued field (Go re-uses the previous slice
    elements there; the model only approximates that)."""
    if t[0] == "arr":
        return all(model_exact(x) for x in t[1])
    if t[0] == "obj":
        seen = set()
        for k, v in t[1]:
            f = fold(k)
            if f in STRUCT_FIELDS:
                if f in seen:
                    return False
                seen.add(f)
            if not model_exact(v):
                return False
    return True


def paths(t, pre=()):
    yield pre
    if t[0] == "arr":
        for i, x in enumerate(t[1]):
            yield from paths(x, pre + (i,))
    elif t[0] == "obj":
        for i, (k, v) in enumerate(t[1]):
            yield from paths(v, pre + (i,))


def get_at(t, p):
    for i in p:
        t = t[1][i] if t[0] == "arr" else t[1][i][1]
    return t


def set_at(t, p, new):
    if not p:
        return new
    t = [t[0], list(t[1])]
    i = p[0]
    if t[0] == "arr":
        t[1][i] = set_at(t[1][i], p[1:], new)
    else:
        t[1][i] = [t[1][i][0], set_at(t[1][i][1], p[1:], new)]
    return t


SCALARS = [["null"], ["bool", True], ["bool", False], ["int", 0], ["int", 1], ["int", -1], ["int", 6], ["int", 2 ** 63], ["int", -2 ** 63],
           ["int", 2 ** 63 - 1], ["int", 10 ** 30], ["int", 10 ** 400], ["int", 2 ** 53 + 1], ["flt", fbits(1.5)], ["flt", fbits(5.0)],
           ["flt", fbits(-0.0)], ["flt", fbits(1e300)], ["str", b""], ["str", b"x"], ["str", b"ceil"], ["str", b"6"], ["arr", []], ["obj", []],
           ["arr", [["null"]]], ["obj", [[b"a", ["null"]]]], ["arr", [["obj", []]]], ["obj", [[b"t", ["int", 4]]]]]
TAGS = [0, 1, 2, 3, 4, 5, 6, 7, 8, 9, 10, 11, 20, 21, 99, -1, 2 ** 31, 2 ** 63 - 1]
KEYVARS = {"t": ["T"], "v": ["V"], "list": ["LIST", "li\u017ft", "List", "lis"], "dict": ["DICT", "Dict", "dic"], "expr": ["EXPR", "Expr", "e\u212apr"],
           "attrs": ["ATTRS", "attr\u017f", "attr"], "name": ["NAME", "Name", "nam"], "params": ["PARAMS", "param\u017f"]}
NAMES = [b"nosuch", b"", b"Ceil", b"Array.sum", b"ceil", b"store", b"load", b"typeId", b"Dict.keys", b"dir "]


def mutate(rng, t):
    ps = list(paths(t))
    p = rng.choice(ps)
    sub = get_at(t, p)
    kind = rng.randrange(14)
    if kind == 0:  # replace a node by a scalar of any type / null
        return set_at(t, p, rng.choice(SCALARS))
    if kind == 1 and sub[0] == "obj" and sub[1]:  # delete a field
        i = rng.randrange(len(sub[1]))
        return set_at(t, p, ["obj", sub[1][:i] + sub[1][i + 1:]])
    if kind in (2, 3):  # tag substitution
        objs = [q for q in ps if get_at(t, q)[0] == "obj" and any(fold(k) == "t" for k, _ in get_at(t, q)[1])]
        if objs:
            q = rng.choice(objs)
            o = get_at(t, q)
            newtag = rng.choice([["int", x] for x in TAGS] + [["flt", fbits(6.0)], ["str", b"6"], ["null"], ["bool", True]])
            return set_at(t, q, ["obj", [[k, (newtag if fold(k) == "t" else v)] for k, v in o[1]]])
    if kind == 4 and sub[0] == "obj" and sub[1]:  # key spelled differently
        i = rng.randrange(len(sub[1]))
        k = sub[1][i][0].decode("utf-8", "replace")
        if k in KEYVARS:
            nk = rng.choice(KEYVARS[k]).encode("utf-8")
            return set_at(t, p, ["obj", sub[1][:i] + [[nk, sub[1][i][1]]] + sub[1][i + 1:]])
    if kind == 5 and sub[0] == "obj":  # extra unknown field
        i = rng.randrange(len(sub[1]) + 1)
        return set_at(t, p, ["obj", sub[1][:i] + [[rng.choice([b"zz", b"x1", b"expiredTime", b"\xe6\xb1\x89"]), rng.choice(SCALARS)]] + sub[1][i:]])
    if kind == 6 and sub[0] == "arr":  # null / junk element
        i = rng.randrange(len(sub[1]) + 1)
        junk = rng.choice(SCALARS)
        return set_at(t, p, ["arr", sub[1][:i] + [junk] * rng.choice([1, 1, 2, 3]) + sub[1][i:]])     # also runs of adjacent junk elements
    if kind == 7:  # native name
        strs = [q for q in ps if get_at(t, q)[0] == "str"]
        if strs:
            return set_at(t, rng.choice(strs), ["str", rng.choice(NAMES)])
    if kind == 8 and sub[0] == "obj" and sub[1]:  # duplicate a scalar / map entry (exactly modelled), with another value
        i = rng.randrange(len(sub[1]))
        k, v = sub[1][i]
        if fold(k) not in STRUCT_FIELDS:
            nv = rng.choice(SCALARS) if rng.random() < 0.6 else v
            j = rng.randrange(len(sub[1]) + 1)
            return set_at(t, p, ["obj", sub[1][:j] + [[k, nv]] + sub[1][j:]])
    if kind == 9:  # nest the whole document as an array element / dict entry / attribute
        w = rng.randrange(3)
        if w == 0:
            return ["obj", [[b"t", ["int", 6]], [b"v", ["obj", [[b"list", ["arr", [t, ["obj", [[b"t", ["int", 4]]]]]]]]]]]]
        if w == 1:
            return ["obj", [[b"t", ["int", 7]], [b"v", ["obj", [[b"dict", ["obj", [[b"k", t]]]]]]]]]
        return ["obj", [[b"t", ["int", 5]], [b"v", ["obj", [[b"expr", ["str", b"1"]], [b"attrs", ["obj", [[b"x", t]]]]]]]]]
    if kind == 10 and sub[0] in ("int", "flt"):  # int literal <-> float literal
        if sub[0] == "int" and abs(sub[1]) < 2 ** 53:
            return set_at(t, p, ["flt", fbits(float(sub[1]))])
        return set_at(t, p, ["int", rng.choice([0, 5, -7, 2 ** 63, 10 ** 25])])
    if kind == 11 and sub[0] == "obj":  # swap entry order
        l = list(sub[1])
        rng.shuffle(l)
        return set_at(t, p, ["obj", l])
    if kind == 12:  # duplicate a struct-valued field (battery only: the model is approximate there)
        objs = [q for q in ps if get_at(t, q)[0] == "obj" and any(fold(k) in STRUCT_FIELDS for k, _ in get_at(t, q)[1])]
        if objs:
            q = rng.choice(objs)
            o = get_at(t, q)
            ks = [i for i, (k, _) in enumerate(o[1]) if fold(k) in STRUCT_FIELDS]
            i = rng.choice(ks)
            k, v = o[1][i]
            nv = rng.choice([v, ["null"], ["obj", []], ["arr", [["null"]]], ["arr", [["obj", [[b"t", ["int", 4]]]]]],
                             ["obj", [[b"list", ["arr", [["obj", [[b"t", ["int", 9]]]]]]]]], ["obj", [[b"list", ["arr", [["null"]]]]]]])
            return set_at(t, q, ["obj", o[1] + [[k, nv]]])
    return set_at(t, p, rng.choice(SCALARS))


FIXED_DOCS = [
    # runs of adjacent null elements (a cleaning loop that removes in place must not skip the element that slides into the gap)
    '{"t":6,"v":{"list":[null,null]}}', '{"t":6,"v":{"list":[{"t":0,"v":1},null,null]}}', '{"t":6,"v":{"list":[null,null,{"t":0,"v":1}]}}',
    '{"t":6,"v":{"list":[{"t":0,"v":1},null,null,{"t":1,"v":2.5}]}}', '{"t":6,"v":{"list":[null,null,null]}}', '{"t":6,"v":{"list":[null,{"t":0,"v":1},null,null]}}',
    '{"t":7,"v":{"dict":{"a":{"t":6,"v":{"list":[null,null]}}}}}', '{"t":6,"v":{"list":[{"t":6,"v":{"list":[{"t":0,"v":3},null,null]}}]}}',
    '{"t":5,"v":{"attrs":{"a":{"t":6,"v":{"list":[null,null,{"t":0,"v":1}]}}},"expr":"1"}}',
    'null', '5', '"s"', '[]', '{}', 'true', '{"t":null,"v":5}', '{"T":0,"V":7}', '{"t":0,"v":null}', '{"t":0,"v":1.0}', '{"t":0,"v":1e2}',
    '{"t":0,"v":9223372036854775808}', '{"t":0.0}', '{"t":"0"}', '{"t":1,"v":5}', '{"t":1,"v":1e300}', '{"t":1,"v":"x"}', '{"t":2,"v":5}', '{"t":2}',
    '{"t":2,"v":null}', '{"t":4,"v":{"x":1}}', '{"t":4,"v":"x"}', '{"t":5}', '{"t":5,"v":null}', '{"t":5,"v":{"attrs":null}}', '{"t":5,"v":{"attrs":5}}',
    '{"t":5,"v":{"attrs":{"a":null}}}', '{"t":5,"v":{"attrs":{},"expr":5}}', '{"t":5,"v":{"ATTRS":{},"Expr":"q"}}', '{"t":5,"v":5}', '{"t":5,"v":[]}',
    '{"t":6}', '{"t":6,"v":null}', '{"t":6,"v":{}}', '{"t":6,"v":{"list":null}}', '{"t":6,"v":{"list":{}}}', '{"t":6,"v":{"list":[null]}}',
    '{"t":6,"v":{"list":[5]}}', '{"t":6,"v":{"list":[{}]}}', '{"t":6,"v":{"li\u017ft":[{"t":4}]}}', '{"t":6,"v":{"list":[{"t":99}]}}', '{"t":7}',
    '{"t":7,"v":{"dict":null}}', '{"t":7,"v":{"dict":[]}}', '{"t":7,"v":{"dict":{"a":null}}}', '{"t":7,"v":{"dict":{"a":null,"a":{"t":4}}}}',
    '{"t":7,"v":{"dict":{"a":{"t":4},"a":null}}}', '{"t":7,"v":{"dict":{"a":5}}}', '{"t":8}', '{"t":8,"v":{"params":[null,"a"]}}', '{"t":8,"v":{"params":[5]}}',
    '{"t":8,"v":{"params":{}}}', '{"t":8,"v":{"name":null,"expr":null,"params":null}}', '{"t":9}', '{"t":9,"v":{"name":"ceil"}}', '{"t":9,"v":{"name":"Ceil"}}',
    '{"t":9,"v":{"name":"nosuch"}}', '{"t":9,"v":{"name":null}}', '{"t":9,"v":{"name":"Array.sum"}}', '{"t":10}', '{"t":10,"v":{"name":"obj1"}}',
    '{"t":10,"v":{"name":5}}', '{"t":20}', '{"t":21}', '{"t":99}', '{"t":-1}', '{"t":3}', '{"t":9223372036854775808}', '{"t":0,"v":5,"v":null}',
    '{"t":0,"v":5,"v":"x"}', '{"t":0,"t":2,"v":"s"}', '{"t":2,"t":null,"v":"s"}', '{"\u212a":1,"t":4}', '{"t":5,"v":{"attrs":5,"attrs":{}}}',
    '{"t":5,"v":{"attrs":{},"attrs":5}}', '{"t":20,"v":{"list":[]}}', '{"t":6,"v":{"list":[{"t":6,"v":{"list":[{"t":6,"v":{"list":[null]}}]}}]}}',
    '{"t":7,"v":{"dict":{"__proto__":{"t":7,"v":{"dict":{"k":{"t":0,"v":1}}}}}}}', '{"t":7,"v":{"dict":{"__proto__":{"t":0,"v":1}}}}',
    '{"t":8,"v":{"expr":"return x","name":"f","params":["x","x"]}}', '{"t":8,"v":{"expr":"((((","name":"","params":[""]}}',
    '{"t":8,"v":{"expr":"func g(){ return g() }; g()","name":"f","params":[]}}', '{"t":5,"v":{"expr":"x"}}', '{"t":5,"v":{"expr":"))","attrs":{"x":{"t":5,"v":{"expr":"x"}}}}}',
    # duplicated struct-valued fields: crash battery only
    '{"t":6,"v":{"list":[{"t":2,"v":"s"}]},"v":{"list":[{"t":4}]}}', '{"t":6,"v":{"list":[{"t":2,"v":"s"},{"t":4}]},"v":{"list":[null]}}',
    '{"t":6,"v":{"list":[{"t":4}]},"v":{}}', '{"t":6,"v":{"list":[{"t":4}]},"v":null}', '{"t":6,"v":{"list":[{"t":9,"v":{"name":"ceil"}}],"list":[{"t":9}]}}',
    '{"t":6,"v":{"list":[{"t":6,"v":{"list":[{"t":0,"v":1}]}}],"list":[{"t":7}]}}', '{"t":8,"v":{"params":["a","b"],"params":[null]}}',
]

RAW_DOCS = [b"", b"{", b"}", b"nul", b"{\"t\":", b"{\"t\":6,\"v\":{\"list\":[", b"\xff\xfe", b"{\"t\":2,\"v\":\"\xff\"}", b"{\"t\":2,\"v\":\"\\ud800\"}",
            b"{\"t\":7,\"v\":{\"dict\":{\"\xff\":{\"t\":4}}}}", b"[" * 200, b"{\"t\":6,\"v\":{\"list\":[" * 50, b"{\"t\":-0}", b"{\"t\":0,\"v\":-0}",
            b"{\"t\":1,\"v\":-0}", b"{\"t\":1,\"v\":1e999}", b"{\"t\":1,\"v\":NaN}", b" {\"t\" : 4 } ", b"{\"t\":4}{\"t\":4}", b"\xef\xbb\xbf{\"t\":4}"]


def nested_doc(depth):
    s = b'{"t":4}'
    for _ in range(depth):
        s = b'{"t":6,"v":{"list":[' + s + b']}}'
    return s


def make_docs(rng, base_value_trees, base_map_trees, n):
    """-> list of dict(kind, tree|None, text(bytes), exact(bool))"""
    docs = []
    for txt in FIXED_DOCS:
        t = tree_of_text(txt)
        docs.append({"kind": "value", "tree": t, "text": render(t).encode("utf-8"), "exact": model_exact(t), "src": "fixed"})
        docs.append({"kind": "map", "tree": ["obj", [[b"x", t], [b"y", ["obj", [[b"t", ["int", 4]]]]]]], "text": None, "exact": model_exact(t), "src": "fixed-map"})
    for txt in ['{}', 'null', '[]', '5', '{"a":null}', '{"a":{"t":4},"a":null}', '{"a":null,"a":{"t":4}}', '{"a":5}', '{"":{"t":0,"v":1}}']:
        t = tree_of_text(txt)
        docs.append({"kind": "map", "tree": t, "text": None, "exact": True, "src": "fixed-map"})
    bases = [("value", t) for t in base_value_trees] + [("map", t) for t in base_map_trees]
    while len(docs) < n and bases:
        kind, t = rng.choice(bases)
        steps = rng.choice([0, 1, 1, 1, 2, 2, 3])
        for _ in range(steps):
            t = mutate(rng, t)
        docs.append({"kind": kind, "tree": t, "text": None, "exact": model_exact(t), "src": f"mutated x{steps}"})
    for d in docs:
        if d["text"] is None:
            d["text"] = render(d["tree"]).encode("utf-8")
    return docs


def raw_docs(rng, texts, n):
    """byte-level garbage: truncations, byte flips and splices of valid documents (Go only)"""
    out = [{"kind": k, "tree": None, "text": b, "exact": False, "src": "raw"} for b in RAW_DOCS for k in ("value", "map")]
    out.append({"kind": "value", "tree": None, "text": nested_doc(1000), "exact": False, "src": "raw-deep"})
    while len(out) < n and texts:
        b = bytearray(rng.choice(texts))
        w = rng.randrange(4)
        if w == 0 and b:
            b = b[:rng.randrange(len(b))]
        elif w == 1 and b:
            for _ in range(rng.randrange(1, 4)):
                b[rng.randrange(len(b))] = rng.choice(b'{}[]",:0123456789nulltrue\\ \xff\x00-e.')
        elif w == 2 and b:
            i, j = sorted((rng.randrange(len(b)), rng.randrange(len(b))))
            b = b[:i] + b[j:]
        else:
            o = bytes(rng.choice(texts))
            i = rng.randrange(len(b) + 1)
            b = b[:i] + o + b[i:]
        out.append({"kind": rng.choice(["value", "map"]), "tree": None, "text": bytes(b), "exact": False, "src": "raw"})
    return out


def run_dec(docs, bat, workers=8):
    """Decode (and exercise) the documents with the Go harness, in `workers` parallel processes (interleaved
    split).  Returns (rows, failed) where failed = list of (returncode, stderr, first id not answered)."""
    from concurrent.futures import ThreadPoolExecutor
    items = [{"id": i, "kind": d["kind"], "doc": d["text"].hex(), "bat": bat if isinstance(bat, int) else bat(i, d)} for i, d in enumerate(docs)]
    chunks = [items[k::workers] for k in range(workers)]
    chunks = [c for c in chunks if c]

    def one(chunk):
        rows, r = common.run_harness(["c09-dec"], stdin="\n".join(json.dumps(x) for x in chunk) + "\n", timeout=1500, check=False)
        fail = None
        if r.returncode != 0:
            done = {x["id"] for x in rows}
            nxt = next((x["id"] for x in chunk if x["id"] not in done), None)
            fail = (r.returncode, (r.stderr or "")[-1500:], nxt)
        return rows, fail

    with ThreadPoolExecutor(max_workers=len(chunks) or 1) as ex:
        outs = list(ex.map(one, chunks))
    rows = [x for o, _ in outs for x in o]
    return rows, [f for _, f in outs if f]
