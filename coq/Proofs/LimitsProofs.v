From Coq Require Import NArith List Bool Lia ZifyBool ZifyN ZifyNat.
From DS Require Import Model.Limits.
Open Scope N_scope.

Lemma write_code_inv cap b :
  0 < b_len b -> b_idx b <= b_len b -> b_len b <= cap ->
  let b' := write_code cap b in b_idx b' <= b_len b' /\ b_len b' <= cap /\ b_len b <= b_len b'.
Proof.
  destruct b as [l i e]. cbn [b_idx b_len b_err]. intros H0 H1 H2. cbv zeta. unfold write_code. cbn [b_idx b_len b_err].
  destruct (N.ltb_spec i l); cbn [b_idx b_len b_err]; [lia|].
  destruct (N.leb_spec (l * 2) cap); cbn [b_idx b_len b_err]; lia.
Qed.

(* no error recorded  ->  every write was stored (nothing was dropped silently) *)
Lemma writes_no_err_all_stored cap n : forall b,
  0 < b_len b -> b_idx b <= b_len b -> b_len b <= cap -> b_err (writes cap n b) = false ->
  b_idx (writes cap n b) = b_idx b + N.of_nat n /\ b_err b = false.
Proof.
  induction n as [|n IH]; intros b H0 H1 H2 He; cbn [writes] in *.
  - split; [lia|exact He].
  - destruct (write_code_inv cap b H0 H1 H2) as (A & B & C).
    destruct (IH (write_code cap b) ltac:(lia) A B He) as [E1 E2].
    unfold write_code in *.
    destruct (N.ltb_spec (b_idx b) (b_len b)); cbn in *; [split; [lia|exact E2]|].
    destruct (N.leb_spec (b_len b * 2) cap); cbn in *; [split; [lia|exact E2]|discriminate].
Qed.

(* the buffer never holds more than cap instructions *)
Lemma writes_bounded cap n : forall b, 0 < b_len b -> b_idx b <= b_len b -> b_len b <= cap -> b_idx (writes cap n b) <= cap.
Proof.
  induction n as [|n IH]; intros b H0 H1 H2; cbn [writes]; [lia|].
  destruct (write_code_inv cap b H0 H1 H2) as (A & B & C). apply IH; try assumption; lia.
Qed.

(* more writes than the cap  ->  the error is recorded *)
Theorem overflow_is_error cap n :
  512 <= cap -> cap < N.of_nat n -> b_err (writes cap n cbuf_init) = true.
Proof.
  intros Hc Hn. destruct (b_err (writes cap n cbuf_init)) eqn:E; [reflexivity|exfalso].
  destruct (writes_no_err_all_stored cap n cbuf_init) as [E1 _]; cbn [cbuf_init b_len b_idx b_err]; try lia; try exact E.
  pose proof (writes_bounded cap n cbuf_init) as B. cbn in B. specialize (B ltac:(lia) ltac:(lia) ltac:(lia)).
  cbn in E1. lia.
Qed.

Theorem no_error_means_complete cap n :
  512 <= cap -> b_err (writes cap n cbuf_init) = false -> b_idx (writes cap n cbuf_init) = N.of_nat n.
Proof.
  intros Hc E. destruct (writes_no_err_all_stored cap n cbuf_init) as [E1 _]; cbn [cbuf_init b_len b_idx b_err]; try lia; try exact E. cbn in E1. lia.
Qed.

(* a guard that compares the index with the array length itself can never let a write out of bounds *)
Theorem guard_covers_array len thr idx : thr <= len -> guarded_push len thr idx <> PushOutOfBounds.
Proof.
  intros H. unfold guarded_push. destruct (N.leb_spec thr idx); [discriminate|].
  destruct (N.ltb_spec idx len); [discriminate|lia].
Qed.

(* the unrepaired guard `> 20` on a 20-slot array did let index 20 through *)
Theorem old_guard_refuted : guarded_push 20 21 20 = PushOutOfBounds.
Proof. reflexivity. Qed.
